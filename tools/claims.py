COMMON = ("Trusted: CPython ast; the abstract evaluator, term normaliser, polarity and provenance calculi under sa/; the library-semantics "
          "table sa/libtable.py (numpy 2.5.3, pandas 3.0.5, scipy 1.18.1, scikit-learn 1.9.1); the site / exception tables in the rule module. "
          "Real arithmetic (float rounding order ignored). Nothing under /repo is imported or executed. ")

claim("C01",
      "Static: decides on every path of every detector's update/reset (a) that drift_state can only hold None/'warning'/'drift' (all stores and the 3 setters), (b) who may write the counters and that each accepted update counts exactly once and each rejected one not at all, (c) the automatic restart after a reported drift per entry-state cell with the detector-specific restart value, (d) that every store of 'drift'/'warning' is dominated by the documented warm-up guard in normal form, (e) the retraining_recs bookkeeping. Together these entail the statement for all inputs and histories under the tabled documented minimums; arithmetic of degenerate parameter values (burn_in 0, window 1) and 'start <= end' of the recommendation over histories are not decided.",
      COMMON + "Lifecycle table in sa/rules/c01.py (restart values, documented minimums, tabled after-count raises). Data parameters documented as required are assumed non-None.",
      "DESIGN.md section 5, C01")
claim("C02",
      "Static state-equivalence argument: (A) the first update of an epoch (entry state drift_state='drift') reads no attribute value that predates the prologue except configuration and tabled carry-overs; (B) every attribute a later update reads is re-initialised at epoch start or epoch-guarded and rewritten by every non-drift update; reset() agrees with __init__; lifetime containers are never indexed by the epoch counter; the lifetime counter is used shift-invariantly; set_reference resets; the drifted batch becomes the reference; CUSUM re-estimates from one slice before reset. These entail the statement given deterministic library calls; equality of RNG schedules is not decided. Two known findings (KF-6).",
      COMMON + "Lifetime / carry-over table in sa/rules/c02.py; axiom total >= since_reset >= 0 (from C01).",
      "DESIGN.md section 5, C02")
claim("C03",
      "Static, necessary conditions (ADWINAccuracy clauses: sufficient): constructor forwarding and indicator of ADWINAccuracy; who may write the window size and that it shrinks only under a drift store; per-step formulas (variance step, bucket merge, removal correction, accessors, both epsilon-cut branches) by algebraic identity; complementary bookkeeping of the split scan; 2^row agreement; bounded write of the bucket arrays; linked-list consistency of the rows. Exactness of mean/variance over arbitrary compress/shrink histories and 'drift exactly when some admissible split exceeds the cut' are runtime quantities and are NOT decided.",
      COMMON, "DESIGN.md section 5, C03")
claim("C04",
      "Static, necessary conditions: CUSUM and Page-Hinkley recurrences by algebraic identity on the value-numbered update(); the observation used is the validated input of this call; direction -> statistic tables extracted per direction cell; estimation / re-estimation of target and sd; append discipline of the bound lists (so that [ssr] is the value just appended). Equality of the decision sequence with an independent computation on all streams is not decided.",
      COMMON + "direction is one of the documented values.", "DESIGN.md section 5, C04")
claim("C05",
      "Static, necessary conditions: indicator polarity (which of ==/!= feeds which statistic), running statistics of DDM/EDDM/STEPD by algebraic identity, guard sets of every store of drift/warning/None (operators and chain order), STEPD window conservation and accessors, retraining_recs bookkeeping. Agreement with the executable specification on all 2^n sequences is not decided.",
      COMMON + "DDM thresholds use the current standard deviation as implemented (pinned by the suite).", "DESIGN.md section 5, C05")
claim("C06",
      "Static, necessary conditions: reader/writer agreement of the confusion-matrix layout, four rates and denominators, pseudo-counts (fresh ones array) in __init__ and reset, weighted statistic and exact update condition, Monte-Carlo statistic and percentile levels, wiring of warning/detect levels to the flags, untracked rates, cache-key completeness, cadence, recs. Statistical validity of the bounds and trace equality are not decided.",
      COMMON, "DESIGN.md section 5, C06")
claim("C07",
      "Static, necessary conditions: common histogram support (edges depend on this update's batch and reference, or on caches kept coherent with the reference; same edges for both histograms), bin count, Hellinger formula and symmetry, feature average, epsilon, adaptive threshold (both statistics), drift test, drift/no-drift blocks, feature_info, divergence selection. Numeric bounds of the distances, value 0 on identical batches and the bootstrap estimate are not decided.",
      COMMON, "DESIGN.md section 5, C07")
claim("C08",
      "Static, necessary conditions: split complementarity of the two row masks in build and fill, build/fill agreement on sides, axis cycling, midpoint, stop rule, count bookkeeping (no exit before the count store), overwrite-or-accumulate branches, corrected distribution, divergence argument order, flattening (one row per node, explicit accumulator), Kulldorff statistic. Count conservation and non-negativity as numeric facts follow from these but are not evaluated on data.",
      COMMON, "DESIGN.md section 5, C08")
claim("C09",
      "Static, necessary conditions: (1 - alpha) quantile, bootstrap construction (2n draws, complementary halves), sample size per detector, decision test, persistence 'in a row' (increment/zero pairing), streaming silence until a full test window, fill mode per detector, reference construction, tree fill completeness. Values of the divergence and critical distance are not decided.",
      COMMON, "DESIGN.md section 5, C09")
claim("C10",
      "Static, necessary conditions: membership split at len(sample1), 0/1 membership vectors, k-NN adjacency construction, NNPS distance formula and symmetry, permutation threshold (complementary re-assignment, normal fit, 1 - alpha quantile), decision and reference replacement. The k-NN relation itself, range [0,1] and value 0 for equal sets are not decided.",
      COMMON, "DESIGN.md section 5, C10")
claim("C11",
      "Static, necessary conditions: definite assignment on both values of online_scaling, per-component storage of the histogram support, constructor formulas and monitor wiring, fill phase and rebuild block (former test window becomes reference, inverse transform before refit, monitor reset), projection of scaled or raw data, aligned supports, winsorising, max of component scores fed to the monitor, intersection divergence, drift pairing. Values of the scores and KDE details are not decided.",
      COMMON, "DESIGN.md section 5, C11")
claim("C12",
      "Static, sufficient under the stated assumptions: every member is called exactly once per iteration of a loop over all members with its own selector applied to the caller's X and the caller's labels; nothing else is called on or stored into a member; the election is applied unconditionally after the loop to all members in insertion order and its result is the ensemble's state on every path; reset/set_reference fan out; views report the members' values; own counters count.",
      COMMON + "Members share no state with each other; interleaving of global-RNG draws between members is outside source analysis.", "DESIGN.md section 5, C12")
claim("C13",
      "Static: return sets; voting predicate exactly drift_state == 'drift'; thresholds decided by evaluating the extracted comparison over every cell (counts, sizes, parameters 0..7) by constant folding; loop idioms checked structurally (soundness argued in DESIGN.md); ConfirmedElection's chain evaluated over the six cells {drift, warning, other} x {counter = 0, != 0}; expiry rule; verdict chain. An election rewritten in an unrecognised shape stops the analysis (exit 2).",
      COMMON + "approvals_needed + confirmations_needed >= 1 and a non-empty member list.", "DESIGN.md section 5, C13")
claim("C14",
      "Static: validate-first (raw arguments reach only the validation helpers; afterwards only validated values are used, so behaviour cannot depend on the container), normal forms of the row-count / column / label-shape / univariate guards and their exception type, commit-after-check, width established once, who may write the validation state. Nine known findings (KF-1..KF-3) are genuine defects recorded, not repaired. MD3 is excluded (requires DataFrames by documentation).",
      COMMON, "DESIGN.md section 5, C14")
claim("C15",
      "Static, sufficient given the library table: escape analysis - the may-alias set (over the caller's data parameters) of every value stored into self, appended to a self container, mutated in place or returned by an injector is empty; validation returns fresh values on every path; injector container state is recorded per call.",
      COMMON + "Library table: what copies, what may return a view.", "DESIGN.md section 5, C15")
claim("C16",
      "Static, sufficient: non-interference by term inspection - in DDM/EDDM/STEPD/ADWINAccuracy every occurrence of a label lies inside the single equality test between the two extracted labels (or inside validation, which looks at shapes only and keeps the labels apart); LinearFourRates uses the labels only as coerced 0/1 indices and in the equality; arguments documented as unused occur nowhere.",
      COMMON + "== on two validated one-element values means 'same label'.", "DESIGN.md section 5, C16")
claim("C17",
      "Static, sufficient under the listed sign assumptions: for every (detector, threshold parameter) non-interference (the parameter reaches only guards, carriers and logs; no statistic, RNG argument or loop count) and polarity of each drift/warning guard in the documented direction by a structural monotonicity / sign calculus; warning parameters do not occur in drift guards and a previous 'warning' state does not influence the statistics. One known finding (KF-5, Page-Hinkley with a negative running mean). A guard whose direction the calculus cannot establish stops the analysis (exit 2).",
      COMMON + "Monotone library functions table; ADWIN: n_harmonic > 0, variance >= 0, log(window) > 0, delta > 0.", "DESIGN.md section 5, C17")
claim("C18",
      "Static, sufficient condition: row-order taint - row-ordered values (the batch, stored reference batches, everything derived equivariantly) flow into permutation-invariant reducers only, never into positional operations; admitted sites (reference halving for detect_batch=1, bootstrap sample, split at len(sample1)) are tabled. Equality of decisions under a seed schedule follows for detectors whose RNG calls take no row-ordered argument; it is not evaluated.",
      COMMON + "Row-order facet of the library table.", "DESIGN.md section 5, C18")
claim("C19",
      "Static: typestate of the two-state protocol extracted per state; refusal guards precede every write; pairing of the warning store with entering the waiting state and of the confirmation block with leaving it; forgetting factor, margin-density recurrence, warning and drift tests, reference statistics by algebraic identity; set_reference and reset restart the margin density. k-fold statistics are library behaviour; interleavings as executions are not explored (the protocol is decided as a table, not by running it).",
      COMMON, "DESIGN.md section 5, C19")
claim("C20",
      "Static: frame conditions - the working copy comes from _preprocess and the result goes through _postprocess; every in-place store into the copy is indexed by the row window (or an index filtered to it) and the target column(s); documented effects as formulas (swap involution, shift, join, random walk); container restored per call (4-cell table). The resampling distribution and behaviour on empty windows are not decided.",
      COMMON, "DESIGN.md section 5, C20")
