"""Print python sources with docstrings removed (keeps original line numbers)."""
import ast, sys
for p in sys.argv[1:]:
    src = open(p).read()
    lines = src.split("\n")
    tree = ast.parse(src)
    skip = set()
    for n in ast.walk(tree):
        if isinstance(n, (ast.FunctionDef, ast.ClassDef, ast.Module, ast.AsyncFunctionDef)):
            b = n.body
            if b and isinstance(b[0], ast.Expr) and isinstance(b[0].value, ast.Constant) and isinstance(b[0].value.value, str):
                for i in range(b[0].lineno, b[0].end_lineno + 1):
                    skip.add(i)
    print("#####", p)
    for i, l in enumerate(lines, 1):
        if i in skip or not l.strip():
            continue
        print(f"{i:4d} {l}")
