"""Verify a seeded change delivered by a sub-agent and record it under /verif/seeded.

usage: seed_verify.py <ID> <a|b|...> [worktree root, default /tmp/wt]
  1. in the agent's scratch worktree /tmp/wt/<ID>: apply the patch, run the pinned
     test suite (must pass), run demo.py (must fail), undo, run demo.py (must pass)
  2. copy patch.diff, demo.py, meta.json (+ what was run) to /verif/seeded/<ID>-<x>/
Detection by the checks is done separately (tools/seed_detect.py)."""
import json, os, shutil, subprocess, sys

def sh(cmd, cwd, timeout=1500):
    p = subprocess.run(cmd, cwd=cwd, shell=True, capture_output=True, text=True, timeout=timeout)
    return p.returncode, (p.stdout + p.stderr)[-1500:]

def main():
    pid, x = sys.argv[1], sys.argv[2]
    root = sys.argv[3] if len(sys.argv) > 3 else "/tmp/wt"
    wt = "%s/%s" % (root, pid)
    sd = "%s/SEED/%s" % (wt, x)
    out = {"property": pid, "variant": x}
    rc, o = sh("git status --short | grep -v '^??' | wc -l", wt)
    assert o.strip().startswith("0"), "worktree not clean: " + o
    rc, o = sh("git apply --check SEED/%s/patch.diff" % x, wt)
    out["applies"] = rc == 0
    assert rc == 0, o
    sh("git apply SEED/%s/patch.diff" % x, wt)
    try:
        rc, o = sh("/venv/bin/python -m pytest -q -p no:cacheprovider --no-cov --timeout=900 2>&1 | tail -3", wt)
        out["tests_with_patch"] = o.strip().splitlines()[-1] if o.strip() else ""
        out["tests_pass_with_patch"] = " passed" in o and " failed" not in o and " error" not in o
        rc, o = sh("/venv/bin/python SEED/%s/demo.py" % x, wt, 300)
        out["demo_rc_with_patch"] = rc
        out["demo_tail_with_patch"] = o[-400:]
        # the static check, run against the patched scratch tree (SA_REPO), so that /repo itself is never touched
        rc, o = sh("SA_REPO=%s SA_OUT=/tmp/sa_seed_out /venv/bin/python -m sa.check %s 2>&1 | grep '^FINDING\|^ANALYSIS-ERROR\|^VIOLATION' | head -8" % (wt, pid), "/verif", 900)
        rc2, _ = sh("SA_REPO=%s SA_OUT=/tmp/sa_seed_out /venv/bin/python -m sa.check %s >/dev/null 2>&1" % (wt, pid), "/verif", 900)
        out["check_exit_first_run"] = rc2
        out["check_reports"] = [l[:300] for l in o.splitlines() if not l.startswith("VIOLATION")][:6]
    finally:
        sh("git checkout -- .", wt)
    rc, o = sh("/venv/bin/python SEED/%s/demo.py" % x, wt, 300)
    out["demo_rc_clean"] = rc
    ok = out["tests_pass_with_patch"] and out["demo_rc_with_patch"] != 0 and out["demo_rc_clean"] == 0
    out["confirmed"] = ok
    dst = "/verif/seeded/%s-%s" % (pid, x)
    if ok:
        os.makedirs(dst, exist_ok=True)
        shutil.copy(sd + "/patch.diff", dst + "/patch.diff")
        shutil.copy(sd + "/demo.py", dst + "/demo.py")
        meta = {}
        try:
            meta = json.load(open(sd + "/meta.json"))
        except Exception as e:
            meta = {"note": "agent meta.json unreadable: %s" % e}
        meta["breaks_property"] = pid
        meta["verification"] = {
            "worktree": "scratch git worktree of /repo HEAD (removed afterwards)",
            "ran": ["git apply patch.diff", "/venv/bin/python -m pytest -q -p no:cacheprovider --no-cov --timeout=900  -> " + out["tests_with_patch"],
                    "/venv/bin/python SEED/%s/demo.py with patch -> exit %s" % (x, out["demo_rc_with_patch"]),
                    "git checkout -- . ; demo.py on the clean tree -> exit %s" % out["demo_rc_clean"]],
            "demo_note": "demo.py expects to be run from the root of a menelaus checkout as SEED/<x>/demo.py (it puts the checkout root on sys.path)",
        }
        if "check_exit_first_run" in out:
            meta["detection"] = {"check": "sa.check %s (quick) with SA_REPO = the scratch worktree with the patch applied (the state of /verif when the change was first seen)" % pid,
                                 "exit": out["check_exit_first_run"], "reports": out["check_reports"]}
            meta["detection_first"] = dict(meta["detection"])  # kept as delivered; seed_detect.py later overwrites "detection" only
        json.dump(meta, open(dst + "/meta.json", "w"), indent=1)
    print(json.dumps(out, indent=1))
    return 0 if ok else 1

sys.exit(main())
