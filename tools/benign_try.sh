#!/bin/sh
# usage: benign_try.sh <benign dir name, e.g. C01-r1> [check ids ... default: the checks recorded as non-zero in meta.json]
# Applies /verif/benign/<name>/patch.diff in a fresh scratch worktree of /repo, runs the given checks with SA_REPO, removes the worktree.
name="$1"; shift
wt="/tmp/wt_btry_$$"
git -C /repo worktree add --detach "$wt" HEAD -q || exit 3
( cd "$wt" && git apply /verif/benign/$name/patch.diff ) || { git -C /repo worktree remove --force "$wt"; exit 3; }
cd /verif
ids="$*"
[ -z "$ids" ] && ids=$(/venv/bin/python -c "import json;m=json.load(open('/verif/benign/$name/meta.json'));print(' '.join(k for k,v in sorted(m['checks'].items()) if v!=0))")
for pid in $ids; do
  SA_REPO="$wt" SA_OUT=/tmp/sa_btry_out_$$ /venv/bin/python -m sa.check $pid > /tmp/sa_btry_$$.txt 2>&1; rc=$?
  echo "== $name under $pid: exit=$rc"
  grep "^FINDING\|^ANALYSIS-ERROR" /tmp/sa_btry_$$.txt | cut -c1-${COLS:-420}
done
git -C /repo worktree remove --force "$wt"; rm -rf /tmp/sa_btry_out_$$ /tmp/sa_btry_$$.txt
